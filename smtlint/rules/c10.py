"""C10 - regex replace uses the leftmost, then shortest, match as SMT-LIB defines.

R1  naive_re_search(manager, pattern, string, k, allow_empty) by ghost predicates carried through both loops:
      D(i, j, p)   "p is the derivative of pattern by string[i..j)"             D(i,i,pattern);  D(i,j,p) => D(i,j+1, char_derivative(p, string[j]))
      NM(i, j)     "no j' in (i, j] has a nullable derivative"                   NM(i,i);  NM(i,j) and D(i,j+1,p') and not p'.nullable => NM(i,j+1)
      NS(i)        "no non-empty match starts in [k, i)"                         NS(k);  NS(i) and dead(i) => NS(i+1)
      dead(i)      NM(i, len)  or  (NM(i,j) and D(i,j,p) and p is the empty term)  (the derivative of the empty term stays empty)
    Found(x, y) inside the loops needs  k <= x < y <= len,  D(x, y, p) with p.nullable,  NM(x, y-1)  and  NS(x);
    the early Found(k, k) needs allow_empty and pattern.nullable, and is mandatory then; NotFound needs NS(i) with i >= len.
    Membership itself (nullable derivative = match) is C01/C03.
R2  str_replace_re searches from 0 allowing the empty match; str_replace_re_all searches from the end of the previous
    match and never accepts an empty match; find_match forwards its arguments to naive_re_search on the global manager.
R3  splices: result = s[..i] ++ t ++ s[j..] for the reported (i, j); replace_re_all appends s[i..j) then t and resumes at k,
    and appends the tail after the last match; the vectors go through the sanitising conversions (C17).
"""
from .. import terms as T
from .. import interp as X
from .. import seq
from .. import calllog
from ..ghost import G, ghost_terms, elem_indices, congruence
from ..region import *
from ..core import guarded
from .c03 import RM, RE

NRS = 'matcher::naive_re_search'
SRE = 'smt_regular_expressions::'
FM = SRE + 'find_match'
CD = RM + 'char_derivative'


def run(ctx):
    names = ctx.crate('dev').variant_names('matcher::SearchResult')
    if names != ['Found', 'NotFound']:
        raise X.Unanalysable('SearchResult variants changed: %r' % (names,))
    guarded(ctx, 'C10.R1', 'C10.R1/naive_re_search', r1_search)
    guarded(ctx, 'C10.R2', 'C10.R2/drivers', r2_drivers)
    guarded(ctx, 'C10.R3', 'C10.R3/splice', r3_splice)


def r1_search(ctx):
    m, pat, s = A(0), A(1), A(2)
    k = T.var('a3', 'usize')
    allow = T.var('a4', 'bool')
    n = T.typed(('len', s), 'usize')

    def D(i, j, p):
        return G('D', i, j, p)

    def NM(i, j):
        return G('NM', i, j)

    def NS(i):
        return G('NS', i)

    def nul(p):
        return T.typed(('fld', p, 'nullable'), 'bool')

    def isempty(p):
        return T.typed(('call', RE + 'RE::is_empty', (p,)), 'bool')

    def hyps(st, goal):
        fs = list(st.pc) + [goal]
        hy = [NS(k)]
        ds = ghost_terms('D', fs)
        nms = ghost_terms('NM', fs)
        nss = ghost_terms('NS', fs)
        for t in ds:
            i, j, p = t[2]
            if i == j and p == pat:
                hy.append(t)
        for t in nms:
            if t[2][0] == t[2][1]:
                hy.append(t)
        # derivative steps present on the path
        cds = []
        for f in fs:
            for t in T.subterms(f):
                if t[0] == 'call' and t[1] == CD and t not in cds:
                    cds.append(t)
        for cdt in cds:
            _, p, ch = cdt[2]
            if not (ch[0] == 'elem' and ch[1] == s):
                continue
            j = ch[2]
            for t in list(ds):
                i, j0, p0 = t[2]
                if p0 == p and (j0 == j or T.entails(st.pc, eq(j0, j))):
                    nxt = D(i, T.mk_add(j, I(1)), cdt)
                    hy.append(T.mk_implies(t, nxt))
                    hy.append(T.mk_implies(all_(NM(i, j), nxt, NOT(nul(cdt))), NM(i, T.mk_add(j, I(1)))))
        # a start position is dead if the scan reached the end, or met the empty term
        for t in list(nms) + [x for h in hy for x in ghost_terms('NM', [h])]:
            i, j = t[2]
            hy.append(T.mk_implies(all_(NS(i), t, le(n, j)), NS(T.mk_add(i, I(1)))))
            for d in list(ds) + [x for h in hy for x in ghost_terms('D', [h])]:
                if d[2][0] == i and (d[2][1] == j):
                    hy.append(T.mk_implies(all_(NS(i), t, d, isempty(d[2][2])), NS(T.mk_add(i, I(1)))))
        allg = ghost_terms('D', fs + hy)
        hy += congruence(ghost_terms('NM', fs + hy)) + congruence(ghost_terms('NS', fs + hy)) + congruence(allg)
        return hy

    def cands(ip, entry, s0, f0, head, mapping):
        out = []
        us = [hv for hv, ev in mapping if T.TYPES.get(hv) == 'usize']
        # RE-valued head objects (the running derivative p)
        ps = []
        for c in f0.cells:
            v = c.v
            while isinstance(v, X.Ref):
                v = ip.load(s0, v.cell, v.path)
            if isinstance(v, X.Sym) and v.term[0] == 'var' and '@bb' in v.term[1] and 'RE' in (v.ty or ''):
                ps.append(v.term)
        vals = [c.v for c in f0.cells if isinstance(c.v, tuple) and T.TYPES.get(c.v) == 'usize' and c.v[0] != 'int']
        for u in us:
            out.append(NS(u))
            for i in vals:
                if i != u:
                    # the scan position is the counter itself, or an offset counted from the start position
                    for j in (u, T.mk_add(i, u)):
                        out.append(NM(i, j))
                        for p in ps:
                            out.append(D(i, j, p))
        return out

    for cfg in ('dev', 'rel'):
        cr = ctx.crate(cfg)
        an = analyse(ctx, cfg, NRS, [le(k, n)], loop_candidates=cands, _hyps=hyps,
                     uninterpreted=lambda p: p.startswith(RM) or p.startswith(RE + 'RE::'))
        ip, fn = an.ip, an.fn
        kinds = set()
        for o in an.outs:
            if o.kind == 'panic':
                ctx.obligation(False)
                ctx.violation('C10.R1', 'C10.R1/naive_re_search/panic:%s' % panic_role(o), fn.path, fn.site(), {'leaf_constraints': pc_text(o)}, cfg)
                continue
            v = variant_of(ip, o.state, o.value)
            if v is None:
                ctx.unanalysable('C10.R1', 'C10.R1/naive_re_search/leaf-shape', fn.path, fn.site(), None, cfg)
                continue
            early = ip.entails(o.state, AND(allow, nul(pat)))
            if v[0] == 'Found':
                x, y = v[1]
                if early:
                    goals = [('early:empty-match-at-start', AND(eq(x, k), eq(y, k)))]
                    kinds.add('early')
                else:
                    kinds.add('found')
                    ps = [t for f in o.pc for t in T.subterms(f) if t[0] == 'call' and t[1] == CD]
                    ps = list(dict.fromkeys(ps))
                    goals = [('found:bounds', all_(le(k, x), lt(x, y), le(y, n))),
                             ('found:not-the-early-case', NOT(AND(allow, nul(pat)))),
                             ('found:derivative-of-matched-substring-is-nullable', any_(*[AND(D(x, y, p), nul(p)) for p in ps]) if ps else FALSE),
                             ('found:no-shorter-match-at-that-position', NM(x, T.mk_sub(y, I(1)))),
                             ('found:no-earlier-match', NS(x))]
            else:
                kinds.add('notfound')
                heads = list(dict.fromkeys(t for f in o.pc for t in T.subterms(f) if t[0] == 'var' and '@bb' in t[1] and T.TYPES.get(t) == 'usize'))
                goals = [('notfound:not-the-early-case', NOT(AND(allow, nul(pat)))),
                         ('notfound:no-match-anywhere', any_(*[AND(NS(t), le(n, t)) for t in heads]) if heads else FALSE)]
            for role, goal in goals:
                ok = ip.entails(o.state, goal)
                ctx.obligation(ok)
                key = 'C10.R1/naive_re_search/%s' % role
                if ok:
                    ctx.ok('C10.R1', key, fn.path, fn.site(), None, cfg)
                    ctx.sample({'rule': 'C10.R1', 'obligation': role, 'leaf': pc_text(o, 5), 'verdict': 'entailed'})
                else:
                    ctx.violation('C10.R1', key, fn.path, fn.site(), {'leaf_constraints': pc_text(o), 'returned': safe_show(ip, o), 'not_entailed': T.show(goal)[:300], 'loop_invariants': ip.loop_info}, cfg)
            for ev in o.state.events:
                if ev[0] in ('may-wrap', 'may-truncate'):
                    ctx.obligation(False)
                    ctx.violation('C10.R1', 'C10.R1/naive_re_search/arith:%s' % ev[1][2], fn.path, '%s:%s' % (fn.file, ev[1][1]), {'kind': ev[0], 'expression': ev[2]}, cfg)
        for need in ('early', 'found', 'notfound'):
            ok = need in kinds
            ctx.obligation(ok)
            (ctx.ok if ok else ctx.violation)('C10.R1', 'C10.R1/naive_re_search/leaf-present:%s' % need, fn.path, fn.site(), None, cfg)


def r2_drivers(ctx):
    for cfg in ('dev', 'rel'):
        cr = ctx.crate(cfg)
        # find_match forwards to naive_re_search on the borrowed global manager
        clo = cr.fn(FM + '::{closure#0}')
        an = analyse(ctx, cfg, FM, [], uninterpreted=lambda p: True)
        # on EVERY path (no shortcut may answer without running the search)
        okw = bool(an.rets) and not an.panics
        for o in an.rets:
            t = an.ip.to_term(o.state, o.value)
            okw = okw and t[0] == 'call' and t[1].endswith('LocalKey::<T>::with') and t[2][1][0] == 'closure' and t[2][1][2] == (A(0), A(1), T.var('a2', 'usize'), T.var('a3', 'bool')) and len(o.state.calls) == 1
        okc = False
        if clo is not None:
            an2 = analyse(ctx, cfg, clo.path, [], uninterpreted=lambda p: True)
            for o in an2.rets:
                t = an2.ip.to_term(o.state, o.value)
                env = A(0)
                okc = t[0] == 'call' and t[1] == NRS and tuple(t[2][1:]) == tuple(T.typed(('fld', env, str(i)), None) if False else ('fld', env, str(i)) for i in range(4))
        ok = okw and okc
        ctx.obligation(ok)
        (ctx.ok if ok else ctx.violation)('C10.R2', 'C10.R2/find_match/forwards-arguments-in-order', FM, None, {'wrapper_ok': okw, 'closure_ok': okc}, cfg)
        # str_replace_re: find_match(r, s1, 0, true)
        an = analyse(ctx, cfg, SRE + 'str_replace_re', [], uninterpreted=lambda p: p == FM or p.startswith('<smt_strings::SmtString as'))
        for o in an.outs:
            calls = [c for c in o.state.calls if c[0] == FM]
            ok = len(calls) == 1 and calls[0][1][0] == A(1) and calls[0][1][2] == I(0) and calls[0][1][3] == TRUE and 'a0' in T.show(calls[0][1][1])
            ctx.obligation(ok)
            (ctx.ok if ok else ctx.violation)('C10.R2', 'C10.R2/str_replace_re/searches-from-zero-allowing-empty-match', SRE + 'str_replace_re', an.fn.site(), {'calls': [T.show(calllog.call_term(c))[:200] for c in calls]}, cfg)


def fm_post(calls):
    """post-condition of find_match = naive_re_search (R1): Found(i,j) has start <= i <= j <= len, and i < j unless empty matches were allowed"""
    hy = []
    for name, args in calls:
        if name != FM:
            continue
        c = ('call', name, args)
        d = T.typed(('discr', c), 'isize')
        f0 = T.typed(('vfld', c, 'Found', '0'), 'usize')
        f1 = T.typed(('vfld', c, 'Found', '1'), 'usize')
        ln = T.typed(('len', args[1]), 'usize')
        hy.append(T.mk_implies(eq(d, I(0)), all_(le(args[2], f0), le(f0, f1), le(f1, ln))))
        # the empty match is only reported when it was asked for (R1: found:bounds has x < y outside the early case,
        # and the early case needs allow_empty)
        if len(args) > 3 and isinstance(args[3], tuple):
            hy.append(T.mk_implies(AND(eq(d, I(0)), NOT(args[3])), lt(f0, f1)))
    return hy


def r3_splice(ctx):
    s1v, r, s2v = A(0), A(1), A(2)
    for cfg in ('dev', 'rel'):
        cr = ctx.crate(cfg)
        un = lambda p: p == FM or p.startswith('<smt_strings::SmtString as')
        hy = lambda st, goal: fm_post(st.calls)
        # --- str_replace_re
        an = analyse(ctx, cfg, SRE + 'str_replace_re', [], uninterpreted=un, _hyps=hy)
        ip, fn = an.ip, an.fn
        S1 = ('call', '<smt_strings::SmtString as std::convert::AsRef<[u32]>>::as_ref', (s1v,))
        S2 = ('call', '<smt_strings::SmtString as std::convert::AsRef<[u32]>>::as_ref', (s2v,))
        for o in an.outs:
            if o.kind == 'panic':
                ok = ip.unsat(o.state.pc, tuple(fm_post(o.state.calls)))
                ctx.obligation(ok)
                (ctx.ok if ok else ctx.violation)('C10.R3', 'C10.R3/str_replace_re/panic:%s' % panic_role(o), fn.path, fn.site(), {'leaf_constraints': pc_text(o)}, cfg)
                continue
            calls = [c for c in o.state.calls if c[0] == FM]
            t = ip.to_term(o.state, o.value)
            ok = len(calls) == 1 and t[0] == 'call' and t[1].startswith('<smt_strings::SmtString as std::convert::From<')
            role = 'result-through-sanitising-conversion'
            if ok:
                ct = calllog.call_term(calls[0])
                d = o.state.variants.get(ct)
                arg = t[2][0]
                if d == 1:
                    ok = arg == S1
                    role = 'notfound-keeps-string'
                else:
                    f0, f1 = T.typed(('vfld', ct, 'Found', '0'), 'usize'), T.typed(('vfld', ct, 'Found', '1'), 'usize')
                    parts = list(arg[1]) if arg[0] == 'list' else None
                    exp = [('slice', S1, I(0), f0), seq.whole(S2), ('slice', S1, f1, T.typed(('len', S1), 'usize'))]
                    ok = parts is not None and seq.same_content(ip, o.state, parts, exp)[0]
                    role = 'found-splices-around-the-match'
            ctx.obligation(ok)
            (ctx.ok if ok else ctx.violation)('C10.R3', 'C10.R3/str_replace_re/%s' % role, fn.path, fn.site(), {'returned': T.show(t)[:300]}, cfg)
        # --- str_replace_re_all (loop steps)
        def lc(ip_, entry, s0, f0, head, mapping):
            return [le(hv, T.typed(('len', S1), 'usize')) for hv, ev in mapping if T.TYPES.get(hv) == 'usize']
        log = calllog.run(ctx, cfg, SRE + 'str_replace_re_all', uninterpreted=un, hyps=hy, loop_candidates=lc)
        ip, fn = log.ip, log.fn
        its = log.iterations
        okn = len(its) >= 1
        ctx.obligation(okn)
        (ctx.ok if okn else ctx.violation)('C10.R3', 'C10.R3/str_replace_re_all/loop-shape', fn.path, fn.site(), None, cfg)
        for it in its:
            calls = it.named('find_match')
            ivars = [hv for hv, ev in it.mapping if T.TYPES.get(hv) == 'usize']
            ok = len(calls) == 1 and calls[0][1][0] == r and calls[0][1][1] == S1 and calls[0][1][2] in ivars and calls[0][1][3] == FALSE
            ctx.obligation(ok)
            (ctx.ok if ok else ctx.violation)('C10.R2', 'C10.R2/str_replace_re_all/searches-from-resume-position-without-empty-matches', fn.path, fn.site(), {'calls': [T.show(calllog.call_term(c))[:200] for c in calls]}, cfg)
            if not ok:
                continue
            i = calls[0][1][2]
            ct = calllog.call_term(calls[0])
            f0, f1 = T.typed(('vfld', ct, 'Found', '0'), 'usize'), T.typed(('vfld', ct, 'Found', '1'), 'usize')
            ok_i = it.cur.get(i) == f1 or (it.cur.get(i) is not None and ip.entails(it.state, eq(it.cur[i], f1)))
            ok_0 = dict(it.mapping).get(i) == I(0)
            ctx.obligation(ok_i and ok_0)
            (ctx.ok if ok_i and ok_0 else ctx.violation)('C10.R2', 'C10.R2/str_replace_re_all/starts-at-zero-and-resumes-at-end-of-match', fn.path, fn.site(), {'resume': T.show(it.cur.get(i)) if it.cur.get(i) else None}, cfg)
            fr = it.state.frames[-1]
            okb = False
            got = None
            for cell in fr.cells:
                if isinstance(cell.v, X.ListV):
                    parts = seq.normalise(ip, it.state, cell.v.parts)
                    got = seq.show_parts(parts)
                    if parts and parts[0][0] == 'slice' and parts[0][1][0] == 'var':
                        same, _ = seq.same_content(ip, it.state, parts[1:], [('slice', S1, i, f0), seq.whole(S2)])
                        okb = okb or same
            ctx.obligation(okb)
            (ctx.ok if okb else ctx.violation)('C10.R3', 'C10.R3/str_replace_re_all/step:appends-gap-then-replacement', fn.path, fn.site(), {'buffer': got}, cfg)
        for o in log.outs:
            if o.kind == 'panic':
                ok = ip.unsat(o.state.pc, tuple(fm_post(o.state.calls)))
                ctx.obligation(ok)
                (ctx.ok if ok else ctx.violation)('C10.R3', 'C10.R3/str_replace_re_all/panic:%s' % panic_role(o), fn.path, fn.site(), {'leaf_constraints': pc_text(o)}, cfg)
                continue
            t = ip.to_term(o.state, o.value)
            calls = [c for c in o.state.calls if c[0] == FM]
            ok = t[0] == 'call' and t[1].startswith('<smt_strings::SmtString as std::convert::From<') and bool(calls)
            if ok:
                arg = t[2][0]
                parts = seq.normalise(ip, o.state, list(arg[1])) if arg[0] == 'list' else None
                i = calls[-1][1][2]
                ok = (parts is not None and parts and parts[0][0] == 'slice' and parts[0][1][0] == 'var' and
                      seq.same_content(ip, o.state, parts[1:], [('slice', S1, i, T.typed(('len', S1), 'usize'))])[0] and
                      o.state.variants.get(calllog.call_term(calls[-1])) == 1)
            ctx.obligation(ok)
            (ctx.ok if ok else ctx.violation)('C10.R3', 'C10.R3/str_replace_re_all/exit:appends-tail-after-last-match', fn.path, fn.site(), {'returned': T.show(t)[:300]}, cfg)
