"""C11 R3-R5 (complement witness, class tables, try_from_iter) - see c11.py header."""
from .. import terms as T
from .. import interp as X
from ..region import *
from ..core import guarded
from .c11 import CP, model

CID = 'character_sets::ClassId'


def final_self(ip, o, idx=1):
    """abstract value of the object behind the &mut/& parameter idx after the call"""
    fr = o.state.frames[0]
    v = fr.cells[idx].v
    while isinstance(v, X.Ref):
        v = ip.load(o.state, v.cell, v.path)
    return v


def list_parts(ip, st, v):
    from ..stdsum import listv_of
    return listv_of(ip, st, v)


def run(ctx, MAX):
    guarded(ctx, 'C11.R3', 'C11.R3/push', r3_push, MAX)
    guarded(ctx, 'C11.R3', 'C11.R3/from_set', r3_from_set, MAX)
    guarded(ctx, 'C11.R3', 'C11.R3/accessors', r3_accessors, MAX)
    guarded(ctx, 'C11.R4', 'C11.R4/tables', r4_tables, MAX)
    guarded(ctx, 'C11.R4', 'C11.R4/iterators', r4_iterators, MAX)
    guarded(ctx, 'C11.R5', 'C11.R5/try_from_iter', r5_try_from_iter, MAX)


def witness_step_goals(W, W2, start, end):
    """the smallest non-member after appending [start,end] (which lies after every earlier interval and satisfies
    W <= start): end+1 if the old witness falls inside the new interval, unchanged otherwise"""
    inside = AND(le(start, W), le(W, end))
    return [('witness-skips-new-interval', T.mk_implies(inside, eq(W2, T.mk_add(end, I(1))))),
            ('witness-kept-otherwise', T.mk_implies(NOT(inside), eq(W2, W)))]


def r3_push(ctx, MAX):
    self_t = A(0)
    LIST, L, S, E = model(self_t)
    W = F(self_t, 'comp_witness')
    start, end = T.var('a1', 'u32'), T.var('a2', 'u32')
    last_end = E(T.mk_sub(L, I(1)))
    ctx.assumptions.add('push: documented precondition start<=end<=MAX_CHAR and start > end of the last interval; witness invariant comp_witness <= start (it is the least non-member of the earlier intervals)')
    pre = [le(start, end), le(end, I(MAX)), OR(eq(L, I(0)), lt(last_end, start)), le(W, start), le(W, I(MAX + 1))]
    for cfg in ('dev', 'rel'):
        an = analyse(ctx, cfg, CP + '::push', pre)
        ip, fn = an.ip, an.fn

        def leaf(o):
            obj = final_self(ip, o)
            lst = field(ip, o.state, obj, 'list')
            parts = list_parts(ip, o.state, lst)
            W2 = field(ip, o.state, obj, 'comp_witness')
            goals = []
            ok_shape = (len(parts) == 2 and parts[0] == ('slice', LIST, I(0), L) and parts[1][0] == 'one')
            goals.append(('appends-one-interval', T.B(ok_shape)))
            if ok_shape:
                el = parts[1][1]
                ok_el = el[0] == 'mk' and el[1] == 'character_sets::CharSet' and el[3] == (start, end)
                goals.append(('appended-interval-is-[start,end]', T.B(ok_el)))
            return goals + witness_step_goals(W, W2, start, end)
        check_leaves(ctx, 'C11.R3', 'push', an, cfg, leaf)


def r3_from_set(ctx, MAX):
    c = A(0)
    cs, ce = F(c, 'start'), F(c, 'end')
    for cfg in ('dev', 'rel'):
        an = analyse(ctx, cfg, CP + '::from_set', [le(cs, ce), le(ce, I(MAX))])
        ip = an.ip

        def leaf(o):
            lst = field(ip, o.state, o.value, 'list')
            parts = list_parts(ip, o.state, lst)
            W2 = field(ip, o.state, o.value, 'comp_witness')
            return [('single-interval', T.B(parts == [('one', c)])),
                    ('witness-zero-if-set-starts-above-zero', T.mk_implies(lt(I(0), cs), eq(W2, I(0)))),
                    ('witness-after-set-if-it-starts-at-zero', T.mk_implies(eq(cs, I(0)), eq(W2, T.mk_add(ce, I(1)))))]
        check_leaves(ctx, 'C11.R3', 'from_set', an, cfg, leaf)


def r3_accessors(ctx, MAX):
    self_t = A(0)
    LIST, L, S, E = model(self_t)
    W = F(self_t, 'comp_witness')
    i = T.var('a1', 'usize')
    inb = lt(i, L)
    for cfg in ('dev', 'rel'):
        def simple(name, assume, goalf, panic_ok=None):
            an = analyse(ctx, cfg, CP + '::' + name, assume)
            check_leaves(ctx, 'C11.R3', name, an, cfg, lambda o: goalf(an.ip, o), (lambda o: panic_ok) if panic_ok is not None else None)
        simple('empty_complement', [], lambda ip, o: [('value', T.mk_iff(o.value, lt(I(MAX), W)))])
        simple('pick_complement', [], lambda ip, o: [('value', eq(o.value, W))])
        simple('len', [], lambda ip, o: [('value', eq(o.value, L))])
        simple('is_empty', [], lambda ip, o: [('value', T.mk_iff(o.value, eq(L, I(0))))])
        simple('start', [], lambda ip, o: [('value', OR(AND(inb, eq(o.value, S(i))), AND(NOT(inb), eq(o.value, I(MAX + 1)))))])
        simple('end', [], lambda ip, o: [('value', OR(AND(inb, eq(o.value, E(i))), AND(NOT(inb), eq(o.value, I(MAX + 1)))))])
        simple('get', [], lambda ip, o: [('value', OR(AND(inb, AND(eq(o.value.xs[0], S(i)), eq(o.value.xs[1], E(i)))),
                                                     AND(NOT(inb), AND(eq(o.value.xs[0], I(MAX + 1)), eq(o.value.xs[1], I(MAX + 1))))))])
        simple('pick', [], lambda ip, o: [('value', AND(inb, eq(o.value, S(i))))], NOT(inb))


def cid_goal(ip, o, v, interval_goal, complement_goal):
    vv = variant_of(ip, o.state, v)
    if vv is None:
        raise X.Unanalysable('undetermined ClassId')
    if vv[0] == 'Interval':
        return interval_goal(vv[1][0])
    return complement_goal


def r4_tables(ctx, MAX):
    self_t = A(0)
    LIST, L, S, E = model(self_t)
    W = F(self_t, 'comp_witness')
    nonempty_comp = le(W, I(MAX))
    cid = A(1)
    d = T.typed(('discr', cid), 'isize')
    idx = T.typed(('vfld', cid, 'Interval', '0'), 'usize')
    names = ctx.crate('dev').variant_names(CID)
    if names != ['Interval', 'Complement']:
        raise X.Unanalysable('ClassId variants changed: %r' % (names,))
    is_int, is_comp = eq(d, I(0)), eq(d, I(1))
    for cfg in ('dev', 'rel'):
        an = analyse(ctx, cfg, CP + '::num_classes', [])
        check_leaves(ctx, 'C11.R4', 'num_classes', an, cfg,
                     lambda o: [('value', OR(AND(nonempty_comp, eq(o.value, T.mk_add(L, I(1)))), AND(NOT(nonempty_comp), eq(o.value, L))))])
        an = analyse(ctx, cfg, CP + '::valid_class_id', [])
        check_leaves(ctx, 'C11.R4', 'valid_class_id', an, cfg,
                     lambda o: [('value', T.mk_iff(o.value, OR(AND(is_int, lt(idx, L)), AND(is_comp, nonempty_comp))))])
        an = analyse(ctx, cfg, CP + '::pick_in_class', [])
        check_leaves(ctx, 'C11.R4', 'pick_in_class', an, cfg,
                     lambda o: [('value', OR(all_(is_int, lt(idx, L), eq(o.value, S(idx))), all_(is_comp, nonempty_comp, eq(o.value, W))))],
                     lambda o: OR(AND(is_int, le(L, idx)), AND(is_comp, NOT(nonempty_comp))))
        # class_of_set / good_char_set: mapping of the CoverResult computed by interval_cover for the same set
        for name in ('class_of_set', 'good_char_set'):
            an = analyse(ctx, cfg, CP + '::' + name, [], uninterpreted=lambda p: p == CP + '::interval_cover')
            ip = an.ip
            seen = set()
            for o in an.outs:
                if o.kind != 'ret':
                    ctx.obligation(False)
                    ctx.violation('C11.R4', 'C11.R4/%s/panic' % name, an.fn.path, an.fn.site(), {'leaf_constraints': pc_text(o)}, cfg)
                    continue
                calls = [c for c in o.state.calls if c[0] == CP + '::interval_cover']
                okcall = len(calls) == 1 and calls[0][1] == (self_t, A(1))
                ctx.obligation(okcall)
                (ctx.ok if okcall else ctx.violation)('C11.R4', 'C11.R4/%s/consults-interval_cover-of-same-set' % name, an.fn.path, an.fn.site(), {'calls': [T.show(('call',) + c) for c in calls]}, cfg)
                if not okcall:
                    continue
                cover = ('call', calls[0][0], calls[0][1])
                cnames = ctx.crate(cfg).variant_names('character_sets::CoverResult')
                cv = known_variant(ip, o.state, cover, len(cnames))     # matched on, or decided by exclusion (if let / matches! chains)
                cname = cnames[cv] if cv is not None else None
                if name == 'good_char_set':
                    exp = None if cname is None else (cname != 'Overlaps')
                    val = o.value
                    if cname is None:
                        # the path did not split on every variant: the returned boolean must still be determined
                        over = cnames.index('Overlaps')
                        ok = ip.entails(o.state, T.mk_iff(val, ne(T.typed(('discr', cover), 'isize'), I(over))))
                    else:
                        ok = ip.entails(o.state, val if exp else NOT(val))
                    seen.add(cname)
                else:
                    rv = variant_of(ip, o.state, o.value)
                    ok = False
                    if rv is not None and cname is not None:
                        if cname == 'CoveredBy':
                            if rv[0] == 'Ok':
                                cidv = variant_of(ip, o.state, rv[1][0])
                                ok = cidv is not None and cidv[0] == 'Interval' and cidv[1][0] == T.typed(('vfld', cover, 'CoveredBy', '0'), 'usize')
                        elif cname == 'DisjointFromAll':
                            if rv[0] == 'Ok':
                                cidv = variant_of(ip, o.state, rv[1][0])
                                ok = cidv is not None and cidv[0] == 'Complement'
                        elif cname == 'Overlaps':
                            ok = rv[0] == 'Err'
                    seen.add(cname)
                ctx.obligation(ok)
                (ctx.ok if ok else ctx.violation)('C11.R4', 'C11.R4/%s/maps:%s' % (name, cname), an.fn.path, an.fn.site(), {'returned': safe_show(ip, o), 'cover_result': cname}, cfg)
            if name == 'class_of_set':
                for need in ('CoveredBy', 'DisjointFromAll', 'Overlaps'):
                    ok = need in seen
                    ctx.obligation(ok)
                    (ctx.ok if ok else ctx.violation)('C11.R4', 'C11.R4/class_of_set/handles:%s' % need, an.fn.path, an.fn.site(), None, cfg)


def r4_iterators(ctx, MAX):
    it = A(0)
    part = ('fld', it, 'partition')
    LIST, L, S, E = model(part)
    W = F(part, 'comp_witness')
    cnt = T.fld(it, 'counter', 'usize')
    nonempty_comp = le(W, I(MAX))
    for cfg in ('dev', 'rel'):
        for ty, payload in (("character_sets::ClassIdIterator<'a>", 'cid'), ("character_sets::PickIterator<'a>", 'pick')):
            name = '<%s as std::iter::Iterator>::next' % ty
            an = analyse(ctx, cfg, name, [])
            ip = an.ip

            def leaf(o):
                v = variant_of(ip, o.state, o.value)
                if v is None:
                    raise X.Unanalysable('undetermined Option')
                obj = final_self(ip, o)
                cnt2 = field(ip, o.state, obj, 'counter')
                goals = [('counter-advances-by-one', eq(cnt2, T.mk_add(cnt, I(1))))]
                if v[0] == 'None':
                    goals.append(('none-iff-exhausted', OR(lt(L, cnt), AND(eq(cnt, L), NOT(nonempty_comp)))))
                elif payload == 'cid':
                    cidv = variant_of(ip, o.state, v[1][0])
                    if cidv is None:
                        raise X.Unanalysable('undetermined ClassId')
                    if cidv[0] == 'Interval':
                        goals.append(('interval-id-is-counter', AND(lt(cnt, L), eq(cidv[1][0], cnt))))
                    else:
                        goals.append(('complement-after-intervals-if-nonempty', AND(eq(cnt, L), nonempty_comp)))
                else:
                    x = v[1][0]
                    goals.append(('pick-of-counter', OR(AND(lt(cnt, L), eq(x, S(cnt))), all_(eq(cnt, L), nonempty_comp, eq(x, W)))))
                return goals
            check_leaves(ctx, 'C11.R4', ty.split('::')[1].split('<')[0] + '::next', an, cfg, leaf,
                         lambda o: eq(cnt, I(2 ** 64 - 1)))


def r5_try_from_iter(ctx, MAX):
    """After sorting by start, an adjacent pair (prev, c) with c.start <= prev.end must yield Err; the loop may only
    continue past a pair with prev.end < c.start, `prev` must then become c, and the witness is maintained as in push."""
    for cfg in ('dev', 'rel'):
        cr = ctx.crate(cfg)
        fn = cr.fn(CP + '::try_from_iter')
        if fn is None:
            raise X.Unanalysable('anchor function try_from_iter not found')
        from .c11c import analyse_try_from_iter
        analyse_try_from_iter(ctx, cfg, fn, MAX)
