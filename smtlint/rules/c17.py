"""C17 - every SmtString the API hands out contains only SMT-LIB characters.

Taint rule over abstract values.  Sinks: every SmtString aggregate built by a function (through
SmtString::make / make_from_slice, which are inlined).  A constructed content is *good* when each part is
  - a single element t with  t <= MAX_CHAR  entailed by the path,
  - a slice of the content of an SmtString argument (good by the type invariant, inductively),
  - a collected map whose closure body is <= MAX_CHAR for the generic element,
  - a vector v on a path that carries the fact  all(v, |x| x <= MAX_CHAR).
R1  every function that constructs a SmtString (callers of make/make_from_slice, found in the call graph) only
    builds good contents; results of other checked constructors are good by induction.
R2  integer constructors: values <= MAX_CHAR are kept, larger ones become REPLACEMENT_CHAR (0xFFFD).
R3  parser: see c08 typestate (every element appended to the parser's buffer is good); parse_smt_literal passes
    exactly that buffer to make.
R4  SmtString aggregates exist only in make and the EMPTY constant; no public function returns &mut into the content.
"""
from .. import terms as T
from .. import interp as X
from .. import seq
from ..region import *
from ..core import guarded

SS = 'smt_strings::'
MAKE = SS + 'SmtString::make'
MFS = SS + 'SmtString::make_from_slice'
ADT = 'smt_strings::SmtString'


def strict_string_axioms(MAX):
    """only elements of an SmtString's own content are bounded"""
    def ax(atoms):
        out = []
        for a in atoms:
            if a[0] == 'elem':
                b = a[1]
                while b[0] == 'slice':
                    b = b[1]
                if b[0] == 'fld' and b[2] == 's' and T.TYPES.get(('#smtstring', b[1])):
                    out.append((((a, 1),), -MAX))
        return out
    return ax


def callers_of(cr, targets):
    out = set()
    for f in cr.nontest_fns():
        if f.kind != 'fn':
            continue
        for bb, c, args, dest, tgt, line, exp in f.calls():
            nm = c.get('resolved') or c.get('callee')
            if nm in targets:
                out.add(f.path)
    return out


def smtstrings_in(ip, st, v, acc):
    """collect SmtString aggregates / symbolic SmtStrings inside an abstract value"""
    if isinstance(v, X.Ref):
        v = ip.load(st, v.cell, v.path)
    if isinstance(v, X.Adt):
        if v.path == ADT:
            acc.append(v)
        else:
            for x in v.xs:
                smtstrings_in(ip, st, x, acc)
    elif isinstance(v, X.Tup):
        for x in v.xs:
            smtstrings_in(ip, st, x, acc)
    elif isinstance(v, X.Sym) and X.split_generics(v.ty)[0] == ADT:
        acc.append(v)


def good_base(ip, st, b, MAX, why):
    if b[0] == 'slice':
        return good_base(ip, st, b[1], MAX, why)
    if b[0] == 'fld' and b[2] == 's' and T.TYPES.get(('#smtstring', b[1])):
        why.append('content of SmtString %s' % T.show(b[1]))
        return True
    if b[0] == 'map':
        _, dom, k, body = b
        ok = ip.entails(st, le(body, I(MAX)))
        why.append('map body %s %s <= MAX_CHAR' % (T.show(body), 'entails' if ok else 'does NOT entail'))
        return ok
    if b[0] == 'repeat':
        return ip.entails(st, le(b[1], I(MAX)))
    if b[0] == 'list':
        return all(good_part(ip, st, p, MAX, why) for p in b[1])
    if b[0] == 'var' and '@bb' in b[1] and getattr(ip, 'c17_bad_appends', None) is not None:
        # a buffer carried around a loop: good iff it started empty/good and every append site of the function is good
        ok = not ip.c17_bad_appends
        why.append('loop-carried buffer %s: %s' % (T.show(b), 'all append sites good' if ok else 'bad append sites: %r' % ip.c17_bad_appends))
        return ok
    for f in st.pc:
        if f[0] == 'quant' and f[1] == 'all' and f[2] == b:
            k, body = f[3], f[4]
            el = T.typed(('elem', b, k), 'u32')
            if T.unsat([body, T.mk_cmp('lt', I(MAX), el)]):
                why.append('path fact all(%s, <= MAX_CHAR)' % T.show(b))
                return True
    why.append('no bound known for the elements of %s' % T.show(b))
    return False


def good_part(ip, st, p, MAX, why):
    if p[0] == 'one':
        ok = ip.entails(st, le(p[1], I(MAX))) if p[1][0] not in ('mk', 'tuple') else False
        if not ok:
            why.append('element %s not bounded by MAX_CHAR on this path' % T.show(p[1]))
        return ok
    return good_base(ip, st, p[1], MAX, why)


def run(ctx):
    MAX = ctx.crate('dev').const_value('smt_strings::MAX_CHAR')
    REPL = ctx.crate('dev').const_value('smt_strings::REPLACEMENT_CHAR')
    if MAX is None or REPL is None:
        raise X.Unanalysable('consts MAX_CHAR / REPLACEMENT_CHAR not found')
    ctx.assumptions.add('SmtString arguments are good (induction over the construction of strings); char values are <= 0x10FFFF')
    guarded(ctx, 'C17.R1', 'C17.R1/constructors', r1_constructors, MAX)
    guarded(ctx, 'C17.R2', 'C17.R2/replacement', r2_replacement, MAX, REPL)
    guarded(ctx, 'C17.R4', 'C17.R4/encapsulation', r4_encapsulation)
    from . import parser_ts
    guarded(ctx, 'C17.R3', 'C17.R3/parser', parser_ts.run_c17, MAX)


def mark_params(ip, fn):
    for i in range(fn.arg_count):
        ty = fn.locals[i + 1]['ty']
        t = ty
        while X.strip_ref(t):
            t = X.strip_ref(t)
        if t == ADT:
            T.TYPES[('#smtstring', T.var('a%d' % i))] = True


def r1_constructors(ctx, MAX):
    cr = ctx.crate('dev')
    direct = callers_of(cr, {MAKE})
    via_slice = callers_of(cr, {MFS})
    fns = sorted((direct | via_slice) - {MAKE, MFS})
    floor = 10
    ok = len(fns) >= floor
    ctx.obligation(ok)
    (ctx.ok if ok else ctx.violation)('C17.R1', 'C17.R1/constructor-inventory', None, None, {'found': fns, 'floor': floor})
    ax = strict_string_axioms(MAX)
    skip_parser = SS + 'parse_smt_literal'
    for cfg in ('dev', 'rel'):
        cr = ctx.crate(cfg)
        for path in fns:
            fn = cr.fn(path)
            if fn is None:
                ctx.unanalysable('C17.R1', 'C17.R1/%s/missing' % path, path, None, None, cfg)
                continue
            if path == skip_parser:
                continue
            short = path.replace('smt_strings::', '')
            mark_params(None, fn)
            bad_appends = []

            def on_call(ip, st, name, args, site, c, bad_appends=bad_appends):
                if name in ('std::vec::Vec::<T, A>::push', 'std::vec::Vec::<T, A>::extend_from_slice') and c.get('generics', [''])[0] == 'u32':
                    from ..stdsum import listv_of, deref_all
                    ip.c17_bad_appends = bad_appends
                    why = []
                    if name.endswith('push'):
                        good = good_part(ip, st, ('one', ip.to_term(st, args[1])), MAX, why)
                    else:
                        good = all(good_part(ip, st, p, MAX, why) for p in listv_of(ip, st, deref_all(ip, st, args[1])))
                    if not good:
                        bad_appends.append((site, why))
                return None
            try:
                an = analyse(ctx, cfg, path, [], axioms=ax, on_call=on_call)
                an.ip.c17_bad_appends = bad_appends
            except X.Unanalysable as e:
                ctx.unanalysable('C17.R1', 'C17.R1/%s/analysis' % short, path, fn.site(), {'reason': str(e)}, cfg)
                continue
            ip = an.ip
            nsinks = 0
            for o in an.outs:
                if o.kind != 'ret':
                    continue
                acc = []
                smtstrings_in(ip, o.state, o.value, acc)
                for sv in acc:
                    if isinstance(sv, X.Sym):
                        # a symbolic SmtString: an argument or the result of another checked constructor
                        continue
                    nsinks += 1
                    parts = seq.content_of(ip, o.state, sv)
                    why = []
                    good = all(good_part(ip, o.state, p, MAX, why) for p in parts)
                    ctx.obligation(good)
                    key = 'C17.R1/%s/constructed-content-good' % short
                    if good:
                        ctx.ok('C17.R1', key, path, fn.site(), None, cfg)
                        ctx.sample({'rule': 'C17.R1', 'function': path, 'content': seq.show_parts(parts)[:200], 'why': why[:3], 'verdict': 'good'})
                    else:
                        ctx.violation('C17.R1', key, path, fn.site(), {'content': seq.show_parts(parts)[:400], 'why': why, 'leaf_constraints': pc_text(o)}, cfg)
            has = nsinks > 0
            ctx.obligation(has)
            (ctx.ok if has else ctx.violation)('C17.R1', 'C17.R1/%s/sink-reached' % short, path, fn.site(), None, cfg)


def r2_replacement(ctx, MAX, REPL):
    x = T.var('a0', 'u32')
    for cfg in ('dev', 'rel'):
        an = analyse(ctx, cfg, '<smt_strings::SmtString as std::convert::From<u32>>::from', [])
        ip, fn = an.ip, an.fn
        for o in an.rets:
            parts = seq.content_of(ip, o.state, o.value)
            ok = len(parts) == 1 and parts[0][0] == 'one' and ip.entails(o.state, OR(AND(le(x, I(MAX)), eq(parts[0][1], x)), AND(lt(I(MAX), x), eq(parts[0][1], I(REPL)))))
            ctx.obligation(ok)
            (ctx.ok if ok else ctx.violation)('C17.R2', 'C17.R2/From<u32>/keeps-valid-replaces-invalid', fn.path, fn.site(), {'content': seq.show_parts(parts)}, cfg)
        an = analyse(ctx, cfg, '<smt_strings::SmtString as std::convert::From<&[u32]>>::from', [])
        ip, fn = an.ip, an.fn
        a = A(0)
        for o in an.rets:
            parts = seq.content_of(ip, o.state, o.value)
            ok = False
            if len(parts) == 1 and parts[0][0] == 'slice' and parts[0][1][0] == 'map' and parts[0][1][1] == a:
                _, dom, k, body = parts[0][1]
                el = T.typed(('elem', a, k), 'u32')
                ok = ip.entails(o.state, OR(AND(le(el, I(MAX)), eq(body, el)), AND(lt(I(MAX), el), eq(body, I(REPL)))))
            ctx.obligation(ok)
            (ctx.ok if ok else ctx.violation)('C17.R2', 'C17.R2/From<&[u32]>/keeps-valid-replaces-invalid', fn.path, fn.site(), {'content': seq.show_parts(parts)}, cfg)
        an = analyse(ctx, cfg, '<smt_strings::SmtString as std::convert::From<std::vec::Vec<u32>>>::from', [],
                     uninterpreted=lambda p: p == '<smt_strings::SmtString as std::convert::From<&[u32]>>::from')
        ip, fn = an.ip, an.fn
        for o in an.rets:
            allgood = [f for f in o.pc if f[0] == 'quant' and f[1] == 'all' and f[2] == a]
            if allgood:
                parts = seq.content_of(ip, o.state, o.value)
                same, _ = seq.same_content(ip, o.state, parts, [seq.whole(a)])
                role = 'all-valid-keeps-vector'
                ok = same
            else:
                t = ip.to_term(o.state, o.value)
                ok = t[0] == 'call' and t[1] == '<smt_strings::SmtString as std::convert::From<&[u32]>>::from' and t[2] == (a,)
                role = 'otherwise-sanitises-whole-vector'
            ctx.obligation(ok)
            (ctx.ok if ok else ctx.violation)('C17.R2', 'C17.R2/From<Vec<u32>>/%s' % role, fn.path, fn.site(), {'returned': safe_show(ip, o)}, cfg)


def r4_encapsulation(ctx):
    cr = ctx.crate('dev')
    # aggregates of SmtString
    sites = []
    for f in cr.nontest_fns():
        for b in f.blocks:
            for s in b['stmts']:
                if s[0] == 'assign' and s[2][0] == 'agg' and isinstance(s[2][1], dict) and s[2][1].get('adt') == ADT:
                    sites.append(f.path)
    allowed = {MAKE, 'smt_strings::EMPTY'}
    for im in cr.impls:
        if im.get('derived') and im.get('self_ty') == ADT:
            allowed |= set(im.get('items', []))   # derived Clone rebuilds the struct from its own (good) field
    for p in sorted(set(sites)):
        ok = p in allowed
        ctx.obligation(ok)
        (ctx.ok if ok else ctx.violation)('C17.R4', 'C17.R4/aggregate-outside-make:%s' % p, p, None, {'allowed': sorted(allowed)})
    okmake = MAKE in sites
    ctx.obligation(okmake)
    (ctx.ok if okmake else ctx.violation)('C17.R4', 'C17.R4/make-is-the-constructor', MAKE, None, None)
    # field `s` is private and no reachable fn returns a mutable reference into it
    adt = cr.adts.get(ADT)
    priv = adt is not None and all(f['vis'] != 'Public' for v in adt['variants'] for f in v['fields'])
    ctx.obligation(priv)
    (ctx.ok if priv else ctx.violation)('C17.R4', 'C17.R4/content-field-private', ADT, None, None)
    for f in cr.nontest_fns():
        if f.kind == 'fn' and f.d.get('reachable') and f.impl_of and f.impl_of.get('self_ty') == ADT:
            rt = f.d.get('ret_ty', '')
            bad = '&mut' in rt or "&'a mut" in rt
            ctx.obligation(not bad)
            if bad:
                ctx.violation('C17.R4', 'C17.R4/mutable-exposure:%s' % f.path, f.path, f.site(), {'ret_ty': rt})
            else:
                ctx.ok('C17.R4', 'C17.R4/no-mutable-exposure', f.path, f.site(), None, None, nontrivial=False)
