"""Inventory of the user-written early exits (break / continue / return / `?`) inside loops of the functions the rule
modules interpret, with the obligation that accounts for each (core.check_early_exits, rule G1).  Counted on the
pinned tree from the HIR dump; a function that is not listed is expected to have none."""

EXPECTED = {
    # C14.R3: the iterator yields exactly the indices whose state is final; the return is the yield
    "<automata::FinalStateIterator<'a> as std::iter::Iterator>::next": {'return': 1},
    # C13.R1: two `?` on make_partition (caller's spec, then after cleanup) and the three documented error returns;
    # every Err leaf is checked to be a validation failure of the caller's specification
    'automata::AutomatonBuilder::<T>::build': {'try': 2, 'return': 3},
    # C20.R5 none-only-from-empty-step
    'character_sets::CharSet::inter_list': {'return': 1},
    # C11.R5 error-only-for-an-overlapping-adjacent-pair
    'character_sets::CharPartition::try_from_iter': {'return': 1},
    # C11.R2 binary_search: the return inside the first loop is the exact hit, checked against the interval table
    'character_sets::CharPartition::class_of_char::binary_search': {'return': 1},
    # C01.R3 set-ops: the return is the absorbing-element / complementary-pair shortcut, checked by the homomorphism rule
    'regular_expressions::simplify_set_operation': {'return': 1},
    # C05.R2: the return is the success leaf (nullable term reached), checked with the path reconstruction
    'regular_expressions::ReManager::get_string_path': {'return': 1},
    # C19.R1 / C02.R1: the return is the bound check `state_count == max_states`
    'regular_expressions::ReManager::compile_with_bound': {'return': 1},
    # C08.R1 printers: `?` propagates the formatter's error only
    '<smt_strings::SmtString as std::fmt::Display>::fmt': {'try': 5},
    # C09.R3: non-digit -> -1
    'smt_strings::str_to_int': {'return': 1},
    # C06.R2: the return is the Found leaf (ghost proof of leftmost match)
    'matcher::naive_search': {'return': 1},
    # C10.R1: return = Found leaf; break = derivative became empty (no longer match possible from i)
    'matcher::naive_re_search': {'return': 1, 'break': 1},
    # C04.R7 has_active_splitter: true-only-with-active_block-at-a-list-with-active-items
    'minimizer::SplitterSet::has_active_splitter': {'return': 1},
    # C04.R6 refine: loop-and-both-exits-present (no active splitter left)
    'minimizer::Minimizer::<D, F>::refine': {'break': 1},
}

# functions owned by a module whose loops are checked by rules that do not interpret the body as a whole (call-graph /
# table rules, per-call summaries): G1 applies to them as well
ALSO = {
    'c01': ['regular_expressions::simplify_set_operation', 'regular_expressions::ReManager::concat_list', 'regular_expressions::ReManager::str',
            'regular_expressions::ReManager::inter_list', 'regular_expressions::ReManager::union_list', 'regular_expressions::ReManager::diff_list',
            'regular_expressions::flatten_inter', 'regular_expressions::flatten_union', 'regular_expressions::flatten_concat', 'regular_expressions::contains'],
    'c04': ['minimizer::Minimizer::<D, F>::collect_refinement_candidates'],
    'c08': ['smt_strings::parse_smt_literal'],
    'c14': ['compact_tables::CompactTableBuilder::set_successors', 'compact_tables::CompactTableBuilder::store_successors'],
    'c17': ['smt_strings::parse_smt_literal'],
}
# C16.H matcher leaves: the returns are the mismatch / the found position, each checked against rigid_match_at
EXPECTED['regular_expressions::rigid_match_at'] = {'return': 1}
EXPECTED['regular_expressions::next_rigid_match'] = {'return': 1}
EXPECTED['regular_expressions::prev_rigid_match'] = {'return': 1}
# C16.R4: a miss of a rigid pattern / a failing flexible region answers false at once
EXPECTED['regular_expressions::find_rigid_matches'] = {'return': 1}
EXPECTED['regular_expressions::find_rigid_matches_rev'] = {'return': 1}
EXPECTED['regular_expressions::match_flexible_patterns'] = {'return': 1}
EXPECTED['regular_expressions::contains'] = {'return': 2}   # linear search: found / passed the place where it would be (sorted by id)

# functions whose loops are verified through inferred invariants and a full postcondition on every leaf (any extra exit
# produces a leaf that must satisfy the same postcondition), so an inventory adds nothing but brittleness
SEMANTIC = {
    'automata::StateInConstruction::choose_default_successor::maj_candidate',
    'matcher::naive_search', 'matcher::naive_re_search',
    'smt_strings::str_to_int', 'smt_strings::vector_lt', 'smt_strings::vector_le', 'smt_strings::vector_prefix', 'smt_strings::vector_suffix',
    'character_sets::CharPartition::class_of_char::binary_search', 'character_sets::CharPartition::interval_cover::binary_search',
    'character_sets::merge_partitions',
}
