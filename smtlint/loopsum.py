"""Summaries of finished loops (the inverse of lower.py, at the level of one path).

After the iterator consumers have been lowered to loops, a function written with `any` / `all` and the same function
written with a `for` loop and an early `return` both reach a rule as several leaves whose constraints talk about the
loop-head variables (position, counters).  A rule that wants to say "the result is  exists k. P(list[k])" needs those
leaves back in closed form.  For one leaf and each loop it went through:

  * the loop was left by its own test (exhausted): every iteration ran to a back edge, so for every position k of the
    iterated sequence the disjunction of the back-edge path conditions holds at k:   all k in dom. C(k)
  * the loop was left early: the facts the leaf holds about the current position are a witness:   any k in dom. H(k)

C and H are the path facts added after the loop head with every counter expressed through one bound variable; pure
position arithmetic (bounds, overflow side conditions) is dropped.  The head-variable facts are then removed from the
leaf.  Nothing is summarised unless the result is closed (no head variable left in the facts, the returned value or the
final memory) - otherwise the leaf is returned unchanged, so a rule can only fail closed.

Two boolean leaves that agree on everything except a summarised fact F / not F are merged into one leaf whose value
is F itself: that is the shape the summaries of `any` / `all` used to produce directly."""
import re
from . import terms as T
from . import interp as X

_HV = re.compile(r'@bb(\d+)#(\d+)\.')


def inst_of(v):
    m = _HV.search(v[1]) if v[0] == 'var' and isinstance(v[1], str) else None
    return (int(m.group(1)), int(m.group(2))) if m else None


def head_vars(t, memo=None):
    out = set()
    for x in T.subterms(t):
        if isinstance(x, tuple) and x and x[0] == 'var' and inst_of(x):
            out.add(x)
    return out


def insts_of(t):
    return {inst_of(v) for v in head_vars(t)}


_ARITH_HEADS = ('var', 'int', 'add', 'sub', 'mul', 'neg', 'len', 'cmp', 'not', 'and', 'or', 'bool')


def position_arithmetic(f, counters):
    """a fact that only relates counters, lengths and constants (bounds, overflow side conditions)"""
    mine = {inst_of(c) for c in counters}

    def walk(x):
        if not isinstance(x, tuple) or not x:
            return True
        if x[0] == 'var':
            return inst_of(x) not in mine or x in counters
        if x[0] == 'len':
            return not (insts_of(x) & mine)        # the length of a sequence this loop does not change
        if x[0] in ('int', 'bool'):
            return True
        if x[0] not in _ARITH_HEADS:
            return False
        return all(walk(y) for y in x[1:] if isinstance(y, tuple))
    return walk(f)


def is_counter(ip, rec, hv):
    for bst, cur in rec['backs']:
        c = cur.get(hv, hv)
        if c != T.mk_add(hv, T.I(1)) and not ip.entails(bst, T.mk_cmp('eq', c, T.mk_add(hv, T.I(1)))):
            return False
    return bool(rec['backs'])


def loop_domain(ip, rec):
    """(position variable, domain term, entry position, end) of what drives the loop, or None: the iterator whose
    position advances by one, else an index variable i counting up by one under a test  i < B  with B unchanged by the
    loop (`while i < n`), whose domain is range(entry, B)"""
    from . import stdsum
    for hv, ev in rec['mapping']:
        it0 = ip.iter_heads.get(hv)
        if it0 is None or it0.zipped is not None or 'rev' in it0.kind or 'filter' in it0.kind or 'filter_map' in it0.kind:
            continue      # (map / take_while / inspect closures keep one position per step; a filter does not)
        if not is_counter(ip, rec, hv):
            continue
        try:
            dom = stdsum.iter_domain(ip, rec['snapshot'], it0)
        except Exception:
            continue
        return hv, dom, ev, it0.end
    hi = (rec['head'], rec['inst'])
    base = set(rec['snapshot'].pc)
    for hv, ev in rec['mapping']:
        if hv[0] != 'var' or T.TYPES.get(hv) not in ('usize', 'u32', 'u64') or hv in ip.iter_heads or not is_counter(ip, rec, hv):
            continue
        bounds = None
        for bst, cur in rec['backs']:
            bs = {f[3] for f in bst.pc if f not in base and f not in bst.safety and f[0] == 'cmp' and f[1] == 'lt' and f[2] == hv and hi not in insts_of(f[3])}
            bounds = bs if bounds is None else bounds & bs
        if bounds and len(bounds) == 1 and isinstance(ev, tuple) and hi not in insts_of(ev):
            B = next(iter(bounds))
            return hv, ('range', ev, B), ev, B
    return None


def summarise_loop(ip, pc, rec, exits, safety=()):
    """pc: list of facts of a leaf.  Returns the new fact list, or None when the loop cannot be put in closed form."""
    hi = (rec['head'], rec['inst'])
    mine = [f for f in pc if hi in insts_of(f)]
    rest = [f for f in pc if hi not in insts_of(f)]
    if not mine:
        return pc
    ld = loop_domain(ip, rec)
    if ld is None:
        return None
    P, dom, e0, _end = ld
    counters = {hv: ev for hv, ev in rec['mapping'] if hv[0] == 'var' and T.TYPES.get(hv) in ('usize', 'u32', 'u64', 'i32', 'isize') and is_counter(ip, rec, hv)}
    K = T.var('k#L%d_%d' % hi, 'usize')
    sigma = {}
    for c, ev in counters.items():
        sigma[c] = K if c == P else T.mk_add(ev, T.mk_sub(K, e0))
    ex = [e for e in exits if e[0] == rec['fn'] and e[1] == rec['head']]
    if not ex:
        return None
    fn = ip.crate.fn(rec['fn']) or rec.get('fnobj')
    if fn is None:
        return None
    chain, callees, sw = fn.loop_test(rec['head'])
    by_test = sw is not None and ex[-1][2] == sw

    def closed(fs, safety=()):
        out = []
        for f in fs:
            if position_arithmetic(f, counters) or f in safety:
                continue      # bounds / no-panic side conditions: true of every run that gets this far
            g = T.subst(f, sigma)
            if hi in insts_of(g):
                return None
            out.append(g)
        return out
    if by_test:
        base = set(rec['snapshot'].pc)
        alts = []
        flag = flag_of(ip, rec)
        notf = T.mk_not(flag[0]) if flag is not None else None
        for bst, cur in rec['backs']:
            d = closed([f for f in bst.pc if f not in base and f != notf], bst.safety)
            if d is None:
                return None
            alts.append(T.conj(d))
        body = T.disj(alts) if alts else T.TRUE
        if T.is_bool(body):
            if body[1]:
                return rest
            return None
        fact = quant('all', dom, K, body)
    else:
        d = closed(mine, safety)
        if d is None:
            return None
        body = T.conj(d)
        if T.is_bool(body):
            return rest if body[1] else None
        fact = quant('any', dom, K, body)
    return rest + [('#sum', fact)]


def qnorm(f):
    """('all' | 'any', dom, K, body) with negations pushed inside, or None"""
    neg = False
    while isinstance(f, tuple) and f and f[0] == 'not':
        neg = not neg
        f = f[1]
    if not (isinstance(f, tuple) and f and f[0] == 'quant'):
        return None
    kind, body = f[1], f[4]
    if neg:
        kind, body = ('any' if kind == 'all' else 'all'), T.mk_not(body)
    return kind, f[2], f[3], body


def complementary(f, g):
    a, b = qnorm(f), qnorm(g)
    if a is None or b is None or a[0] == b[0] or a[1] != b[1]:
        return False
    bb = T.subst(b[3], {b[2]: a[2]}) if a[2] != b[2] else b[3]
    return a[3] == T.mk_not(bb) or T.valid_iff([], a[3], T.mk_not(bb))


def loop_frame(ip, rec, exits):
    """(P, dom, e0, counters, K, sigma, by_test) of a loop record on a path with the given exits, or None"""
    ld = loop_domain(ip, rec)
    if ld is None:
        return None
    P, dom, e0, end = ld
    counters = {hv: ev for hv, ev in rec['mapping'] if hv[0] == 'var' and T.TYPES.get(hv) in ('usize', 'u32', 'u64', 'i32', 'isize') and is_counter(ip, rec, hv)}
    K = T.var('k#L%d_%d' % (rec['head'], rec['inst']), 'usize')
    sigma = {c: (K if c == P else T.mk_add(ev, T.mk_sub(K, e0))) for c, ev in counters.items()}
    ex = [e for e in exits if e[0] == rec['fn'] and e[1] == rec['head']]
    fn = ip.crate.fn(rec['fn']) or rec.get('fnobj')
    if not ex or fn is None:
        return None
    chain, callees, sw = fn.loop_test(rec['head'])
    return P, dom, e0, counters, K, sigma, (sw is not None and ex[-1][2] == sw), end


def flag_of(ip, rec, frame=None):
    """(F, b(K)) for a scan that stops on a flag - `while i < n && !found { found = b(i); i += 1 }` -, or None:
    a boolean carried by the loop, false on entry, whose every way round the loop starts with the flag still false and
    ends with it set to a value b(position) that mentions nothing else the loop carries.  By induction on the position
    i at the head:  F <=> (i > e0 and b(i-1)), and b is false at every position before i-1;  so wherever the loop is
    left by its bound (i >= B) or by the flag (F true),  F <=> any(range(e0, B), k, b(k))."""
    fr = frame
    if fr is None:
        ld = loop_domain(ip, rec)
        if ld is None or not rec['backs']:
            return None
        P, dom, e0, end = ld
        counters = {hv: ev for hv, ev in rec['mapping'] if hv[0] == 'var' and T.TYPES.get(hv) in ('usize', 'u32', 'u64', 'i32', 'isize') and is_counter(ip, rec, hv)}
        K = T.var('k#L%d_%d' % (rec['head'], rec['inst']), 'usize')
        sigma = {c: (K if c == P else T.mk_add(ev, T.mk_sub(K, e0))) for c, ev in counters.items()}
    else:
        P, dom, e0, counters, K, sigma = fr
    if dom[0] != 'range':
        return None
    hi = (rec['head'], rec['inst'])
    for hv, ev in rec['mapping']:
        if hv[0] != 'var' or T.TYPES.get(hv) != 'bool' or ev != T.FALSE:
            continue
        body = None
        for bst, cur in rec['backs']:
            c = cur.get(hv)
            if T.mk_not(hv) not in bst.pcset or not isinstance(c, tuple):
                body = None
                break
            b = T.subst(c, sigma)
            if hi in insts_of(b) or (body is not None and b != body):
                body = None
                break
            body = b
        if body is not None:
            return hv, quant('any', dom, K, body)
    return None


def flag_exit(ip, rec, exits, F, pc):
    """the loop was left by the second half of its test  `.. && !F`: from a switch reached from the loop's first test
    through blocks that only copy into temporaries, on a path that knows F to be true"""
    ex = [e for e in exits if e[0] == rec['fn'] and e[1] == rec['head']]
    fn = ip.crate.fn(rec['fn']) or rec.get('fnobj')
    if not ex or fn is None or pc is None or F not in set(pc):
        return False
    src = ex[-1][2]
    chain, callees, sw = fn.loop_test(rec['head'])
    if sw is None or src is None or src == sw:
        return False
    body = fn.loops().get(rec['head'], set())
    cur, seen = None, set()
    nxt = [b for b in fn.succ[sw] if b in body]
    if len(nxt) != 1:
        return False
    cur = nxt[0]
    while cur not in seen:
        seen.add(cur)
        blk = fn.blocks[cur]
        for st_ in blk['stmts']:
            if st_[0] == 'assign' and (st_[1]['p'] or fn.locals[st_[1]['l']].get('name')):
                return False
            if st_[0] not in ('assign', 'storage_live', 'storage_dead', 'nop', 'live', 'dead'):
                return False
        t = blk['term']
        if cur == src:
            return t[0] == 'switch'
        if t[0] != 'goto':
            return False
        cur = t[1]
    return False


def closed_values(ip, rec, exits, pc=None):
    """closed terms for the loop-carried objects of an exhausted loop:
       vector V with  V' = V ++ [t(k)]  on every back edge, V = [] (or any list) on entry      ->  entry ++ map(dom, k, t(k))
       vector V with  V'[k] = t(k)  (k the position, V of the domain's length on entry)         ->  map(dom, k, t(k))
       scalar A  with  A' = b(A, k)  on every back edge                                         ->  fold(dom, entry, a, k, b(a, k))
    Only when the loop was left by its own test; {} otherwise."""
    if not rec['backs']:
        # the body cannot be completed even once on this path condition: everything the loop carries has its entry value
        hi0 = (rec['head'], rec['inst'])
        out0 = {V: (entry, None) for V, (entry, loc) in rec.get('vec_heads', {}).items() if isinstance(entry, tuple) and hi0 not in insts_of(entry)}
        out0.update({hv: (ev, None) for hv, ev in rec['mapping'] if hv[0] == 'var' and isinstance(ev, tuple) and hi0 not in insts_of(ev)})
        return out0
    fr = loop_frame(ip, rec, exits)
    if fr is None:
        return {}
    P, dom, e0, counters, K, sigma, by_test, end = fr
    flag = flag_of(ip, rec, (P, dom, e0, counters, K, sigma))
    if not by_test:
        if flag is not None and flag_exit(ip, rec, exits, flag[0], pc):
            return {flag[0]: (flag[1], None)}
        return {}
    if not rec['backs']:
        return {}
    hi = (rec['head'], rec['inst'])
    out = {}
    if flag is not None:
        out[flag[0]] = (flag[1], None)
    n_dom = T.mk_sub(end, e0)
    # element-wise definitions number the elements from 0 (the convention of the `collect` summary): position = e0 + k
    sigma_abs = sigma
    sigma = {c: T.mk_add(ev, K) for c, ev in counters.items()}
    base = set(rec['snapshot'].pc)
    # what the loop carries but never changes still has its entry value
    same = {}
    for V, (entry, loc) in rec.get('vec_heads', {}).items():
        if isinstance(entry, tuple) and hi not in insts_of(entry) and all(cur.get(V) == V for bst, cur in rec['backs']):
            same[V] = entry
    for hv, ev in rec['mapping']:
        if hv[0] == 'var' and hv not in counters and isinstance(ev, tuple) and hi not in insts_of(ev) and all(cur.get(hv) == hv for bst, cur in rec['backs']):
            same[hv] = ev
    for V, t in same.items():
        out[V] = (t, None)
    sigma = dict(list(sigma.items()) + list(same.items()))
    sigma_abs = dict(list(sigma_abs.items()) + list(same.items()))
    for V, (entry, loc) in rec.get('vec_heads', {}).items():
        if V in same:
            continue
        ts = set()
        alts = []
        kind = None
        keeps = []
        skipped = False
        for bst, cur in rec['backs']:
            c = cur.get(V)
            if c is None:
                kind = 'bad'
                break
            if c == V:
                skipped = True        # nothing appended on this way round the loop (a filtered element)
                continue
            if c[0] == 'list' and len(c[1]) == 2 and c[1][0][0] == 'slice' and c[1][0][1] == V and c[1][1][0] == 'one':
                k2, t = 'push', c[1][1][1]
            elif c[0] == 'upd*' and c[1] == V and len(c[2]) == 1:
                (idx, val), = c[2]
                if not isinstance(idx, tuple) or T.subst(idx, sigma) != K:
                    kind = 'bad'
                    break
                k2, t = 'write', val
            else:
                kind = 'bad'
                break
            if kind not in (None, k2):
                kind = 'bad'
                break
            kind = k2
            t = T.subst(t, sigma)
            if hi in insts_of(t):
                kind = 'bad'
                break
            ts.add(t)
            alts.append(t)
            # the condition under which this way round the loop is taken (for a conditional push)
            d = []
            for f in bst.pc:
                if f in base or f in bst.safety or position_arithmetic(f, counters):
                    continue
                g = T.subst(f, sigma)
                if hi in insts_of(g):
                    d = None
                    break
                d.append(g)
            keeps.append(None if d is None else T.conj(d))
        if kind in (None, 'bad'):
            continue
        if len(ts) != 1:
            # several ways round the loop append different values: a conditional element, if every way is told apart
            # by a closed condition (and none skips)
            if skipped or kind != 'push' or any(k_ is None for k_ in keeps) or len(alts) != len(keeps):
                continue
            body = alts[-1]
            for c_, t_ in reversed(list(zip(keeps, alts))[:-1]):
                body = T.mk_ite(c_, t_, body)
        else:
            body = ts.pop()
        if skipped:
            if kind != 'push' or entry != ('list', ()) or any(k_ is None for k_ in keeps):
                continue
            out[V] = (('filtermap', dom, K, T.disj(keeps), body), None)
            continue
        m = ('map', dom, K, body)
        T.typed(('len', m), 'usize')
        if kind == 'push':
            if entry == ('list', ()):
                out[V] = (m, n_dom)
            elif body[0] == 'elem' and body[2] == T.mk_add(e0, K) and hi not in insts_of(body[1]):
                # the elements of a sequence appended one by one, in order: the slice itself appended
                parts = entry[1] if entry[0] == 'list' else (('slice', entry, T.I(0), T.typed(('len', entry), 'usize')),)
                out[V] = (('list', tuple(parts) + (('slice', body[1], e0, end),)), None)
            # any other non-empty start is left alone (no concatenation term in the algebra)
        else:
            # every slot written exactly once: the vector had the domain's length on entry (index writes keep it)
            snap = rec['snapshot']
            if isinstance(entry, tuple) and hi not in insts_of(entry) and ip.entails(snap, T.mk_cmp('eq', T.typed(('len', entry), 'usize'), n_dom)):
                out[V] = (m, n_dom)
    for hv, ev in rec['mapping']:
        if hv in counters or hv[0] != 'var' or hv in out:
            continue
        bodies = set()
        ok = True
        A2 = T.var('acc#L%d_%d' % hi, T.TYPES.get(hv))
        for bst, cur in rec['backs']:
            c = cur.get(hv)
            if c is None or c == hv:
                ok = False
                break
            b = T.subst(T.subst(c, sigma_abs), {hv: A2})
            if hi in insts_of(b):
                ok = False
                break
            bodies.add(b)
        if ok and len(bodies) == 1 and isinstance(ev, tuple) and hi not in insts_of(ev):
            t = ('fold', dom, ev, A2, K, bodies.pop())
            if T.TYPES.get(hv):
                T.TYPES.setdefault(t, T.TYPES.get(hv))
            out[hv] = (t, None)
    return out


def quant(kind, dom, K, body):
    q = ('quant', kind, dom, K, body)
    T.TYPES.setdefault(q, 'bool')
    return q


def memory_terms(ip, st):
    """terms of everything reachable from the root frame's arguments (closedness / equality of leaves); effects of callees on
    them show up there as versioned objects, the call log itself is only a trace"""
    out = []
    fr = st.frames[0]
    for i in range(1, fr.fn.arg_count + 1):
        v = fr.cells[i].v
        try:
            while isinstance(v, X.Ref):
                v = ip.load(st, v.cell, v.path)
            out.append(ip.to_term(st, v))
        except Exception:
            out.append(('opaque', i))
    return tuple(out)


def rewrite_state(st, sub):
    """substitute terms in every abstract value reachable from the frames of st (in place; st is a private clone)"""
    seen = set()

    def rt(t):
        return T.subst(t, sub)

    def rv(v):
        if isinstance(v, tuple):
            return rt(v)
        if isinstance(v, X.Tup):
            return X.Tup([rv(x) for x in v.xs])
        if isinstance(v, X.Adt):
            return X.Adt(v.path, v.variant, v.vidx, [rv(x) for x in v.xs], v.is_enum)
        if isinstance(v, X.Ref):
            rc(v.cell)
            return v
        if isinstance(v, X.Sym):
            nt = rt(v.term)
            if isinstance(nt, tuple) and nt and nt[0] == 'list' and not v.over:
                return X.ListV(list(nt[1]))
            return X.Sym(nt, v.ty, {k: rv(x) for k, x in v.over.items()}, v.variant, v.wr)
        if isinstance(v, X.ListV):
            parts = []
            for p in v.parts:
                q = tuple(rt(x) if isinstance(x, tuple) else x for x in p)
                if q[0] == 'slice' and isinstance(q[1], tuple) and q[1] and q[1][0] == 'list' and q[2] == T.I(0):
                    parts.extend(q[1][1])      # the whole of a list that now has a closed form: its parts
                else:
                    parts.append(q)
            return X.ListV(parts)
        if isinstance(v, X.Clo):
            return X.Clo(v.path, [rv(x) for x in v.upvars])
        if isinstance(v, X.Uninit):
            return X.Uninit(rv(v.v))
        return v

    def rc(cell):
        if id(cell) in seen:
            return
        seen.add(id(cell))
        cell.v = rv(cell.v)
    for fr in st.frames:
        for c in fr.cells:
            rc(c)
    for c in list(st.symcells.values()):
        rc(c)


def summarise(ip, o):
    """closed form of one outcome, or the outcome itself when that is not possible"""
    if o.kind != 'ret' or not getattr(ip, 'loop_records', None):
        return o
    st = o.state
    try:
        vt = ip.to_term(st, o.value) if o.value is not None else None
    except Exception:
        return o
    found = set()
    for f in st.pc:
        found |= insts_of(f)
    if vt is not None:
        found |= insts_of(vt)
    mem = memory_terms(ip, st)
    for t in mem:
        found |= insts_of(t)
    if not found:
        return o
    pc = list(st.pc)
    s2 = st.clone()
    value = o.value
    is_ret_cell = bool(st.frames) and value is st.frames[0].cells[0].v
    if is_ret_cell:
        value = s2.frames[0].cells[0].v
    elif not isinstance(value, tuple) and value is not None:
        return o
    done = 0
    for hi in sorted(found, key=lambda x: -x[1]):
        rec = ip.loop_records.get(hi)
        if rec is None:
            continue
        try:
            cv = closed_values(ip, rec, st.loop_exits, st.pc)
        except Exception:
            cv = {}
        pc2 = pc
        one = {}
        if cv:
            one = {V: t for V, (t, n) in cv.items()}
            pc2 = [T.subst(f, one) for f in pc2]
            for V, (t, n) in cv.items():
                if n is not None:
                    pc2.append(T.mk_cmp('eq', T.typed(('len', t), 'usize'), n))
        pc2 = summarise_loop(ip, pc2, rec, st.loop_exits, st.safety)
        if pc2 is None:
            continue
        # commit only if this loop's variables are gone from the value and the memory as well
        s3 = s2.clone() if one else s2
        v3 = value
        if one:
            rewrite_state(s3, one)
            v3 = s3.frames[0].cells[0].v if is_ret_cell else (T.subst(value, one) if isinstance(value, tuple) else value)
        try:
            vt3 = ip.to_term(s3, v3) if v3 is not None else None
        except Exception:
            continue
        if (vt3 is not None and hi in insts_of(vt3)) or any(hi in insts_of(t) for t in memory_terms(ip, s3)):
            continue
        pc, s2, value = pc2, s3, v3
        done += 1
    if not done:
        return o
    s2.pc = []
    s2.pcset = set()
    facts = []
    for f in pc:
        if isinstance(f, tuple) and f and f[0] == '#sum':
            facts.append(f[1])
            f = f[1]
        if T.is_bool(f):
            if f[1]:
                continue
            return o
        s2.pc.append(f)
        s2.pcset.add(f)
    o2 = X.Outcome('ret', s2, value=value, info=o.info)
    o2.summarised = facts
    return o2


def summarise_all(ip, outs):
    """summarise every leaf, then merge boolean leaves that differ only by a summarised fact and its negation"""
    outs = [summarise(ip, o) for o in outs]
    done = [False] * len(outs)
    res = []
    for i, a in enumerate(outs):
        if done[i]:
            continue
        fa = getattr(a, 'summarised', None)
        if a.kind == 'ret' and fa and len(fa) == 1 and T.is_bool(a.value if isinstance(a.value, tuple) else ('x',)):
            for j in range(i + 1, len(outs)):
                b = outs[j]
                fb = getattr(b, 'summarised', None)
                if done[j] or b.kind != 'ret' or not fb or len(fb) != 1 or not T.is_bool(b.value if isinstance(b.value, tuple) else ('x',)):
                    continue
                if a.value == b.value or not complementary(fa[0], fb[0]):
                    continue
                ra = [f for f in a.state.pc if f != fa[0]]
                rb = [f for f in b.state.pc if f != fb[0]]
                if set(ra) != set(rb) or memory_terms(ip, a.state) != memory_terms(ip, b.state):
                    continue
                # value is the fact of the leaf that answers true
                pos = fa[0] if a.value[1] else fb[0]
                s2 = a.state.clone()
                s2.pc = list(ra)
                s2.pcset = set(ra)
                m = X.Outcome('ret', s2, value=pos, info=a.info)
                m.summarised = []
                res.append(m)
                done[i] = done[j] = True
                break
        if not done[i]:
            res.append(a)
            done[i] = True
    return res


def close_term(ip, st, t):
    """t with the loop-carried objects of finished, exhausted loops replaced by their closed forms (closed_values);
    used on terms recorded while a path was still running, e.g. the arguments of a call made after an inner loop"""
    for _ in range(4):
        hs = insts_of(t)
        if not hs:
            return t
        changed = False
        for hi in sorted(hs, key=lambda x: -x[1]):
            rec = ip.loop_records.get(hi)
            if rec is None:
                continue
            try:
                cv = closed_values(ip, rec, st.loop_exits, st.pc)
            except Exception:
                cv = {}
            one = {V: c for V, (c, n) in cv.items()}
            t2 = T.subst(t, one) if one else t
            if t2 != t:
                t, changed = t2, True
        if not changed:
            break
    return t


def summarise_facts(ip, st, skip=()):
    """the facts of an arbitrary state with every finished loop (one that has an exit on this path and is not in
    `skip`, e.g. the loop whose back edge the state sits on) put in closed form where possible"""
    pc = list(st.pc)
    found = set()
    for f in pc:
        found |= insts_of(f)
    for hi in sorted(found, key=lambda x: -x[1]):
        if hi in skip:
            continue
        rec = ip.loop_records.get(hi)
        if rec is None or not any(e[0] == rec['fn'] and e[1] == rec['head'] for e in st.loop_exits):
            continue
        try:
            cv = closed_values(ip, rec, st.loop_exits, st.pc)
        except Exception:
            cv = {}
        pc2 = pc
        if cv:
            one = {V: t for V, (t, n) in cv.items()}
            pc2 = [T.subst(f, one) for f in pc2]
        pc2 = summarise_loop(ip, pc2, rec, st.loop_exits, st.safety)
        if pc2 is not None:
            pc = pc2
    return [f[1] if (isinstance(f, tuple) and f and f[0] == '#sum') else f for f in pc]
