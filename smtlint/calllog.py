"""Call-log view of a function: everything uninterpreted, one record per loop iteration (back edge) and per exit.

Used by the translation-shape rules (BFS copies, folds): the rule inspects which calls an iteration makes, with
which argument terms, under which path facts."""
from . import terms as T
from . import interp as X


class Iteration:
    def __init__(self, head, state, calls, cur, mapping, valid):
        self.head, self.state, self.calls, self.cur, self.mapping, self.valid = head, state, calls, cur, mapping, valid

    def named(self, suffix):
        return [c for c in self.calls if c[0].endswith(suffix)]

    def has(self, f):
        return f in self.state.pcset

    def lacks(self, f):
        return T.mk_not(f) in self.state.pcset


class Log:
    def __init__(self, ip, fn, outs, iterations):
        self.ip, self.fn, self.outs, self.iterations = ip, fn, outs, iterations

    def of_head(self, head):
        return [i for i in self.iterations if i.head == head]

    @property
    def heads(self):
        return sorted({i.head for i in self.iterations}, key=str)


def run(ctx, cfg, fnpath, uninterpreted=None, inline=(), **kw):
    cr = ctx.crate(cfg)
    fn = cr.fn(fnpath)
    if fn is None:
        raise X.Unanalysable('anchor function %s not found' % fnpath)
    un = uninterpreted or (lambda p: not any(p.endswith(k) for k in inline))
    hyps = kw.pop('hyps', None)
    exact = kw.pop('exact_casts', None)
    opaque = kw.pop('opaque', None)
    ip = X.Interp(cr, uninterpreted=un, **kw)
    if opaque:
        ip.opaque = set(opaque)
    ip.inline_closures = tuple(k for k in inline if '{closure' in k)
    ip.hyps = hyps
    if exact:
        ip.exact_casts = set(exact)
    st = ip.start_state(fn, arg_names=['a%d' % i for i in range(fn.arg_count)])
    outs = ip.run(st)
    ctx.absorb(ip, fnpath)
    its = []
    for (p, head, bst, bmap, valid, cur) in ip.back_states:
        model = p.startswith('#iter_next<')     # the search loop of a filtering adaptor: its ways round are elements this function's loop skips
        if p != fnpath and not model and (p.startswith('#') or p.split('::{closure')[0] in X.KNOWN_FNS) and not any(p.endswith(k) for k in inline):
            continue      # loops of callees of the reference tree are theirs; a helper extracted later is part of this function
        start = bst.ghost.get(('iter-start', len(bst.frames), head), 0)
        # loops of an inlined helper are told apart from the function's own by their owner (block numbers may coincide)
        hid = head if p == fnpath else '%s#bb%d' % ('#next' if model else p.rsplit('::', 1)[-1], head)
        its.append(Iteration(hid, bst, bst.calls[start:], cur, bmap, valid))
    log = Log(ip, fn, outs, its)
    log.entries = [(h[1], h[5]) for h in ip.head_states if h[0] == fnpath or not (h[0].startswith('#') or h[0].split('::{closure')[0] in X.KNOWN_FNS)]
    return log


def call_term(c):
    return ('call', c[0], c[1])


def payload(opt_term, variant='Some', idx='0'):
    return ('vfld', opt_term, variant, idx)
